claim("C01", "SSA dominance facts (must-pass-through) + error-flow analysis + field-ownership + effects analysis",
      "Decides: every layout-trusting call and every success return of both entry points is dominated by a successful "
      "VerifyLayoutSignatures(env, keys) on the unmodified parameters; the guard's shape (non-empty key set, all keys, errors fail); "
      "the enforced Layout derives from GetPayload() of the verified object; signature is bound to the enforced bytes per wrapper; "
      "strict decoding; the payload loader returns the decoded object unmodified (R-C11-6); no dropped errors (incl. unexported helpers and errors carried around loops); every loop below the guard visits all elements or fails; no write through the caller's layout. Entry-point rules look through unexported helper frames (depth 3). Does not decide cryptographic soundness.", "4.1")
claim("C05", "SSA def-use wiring + path facts over the compare loop + access-path tables",
      "Decides: only verified links flow through sublayouts/reduce/rules/summary; every link of a step is compared on materials and "
      "products on every path to the loop latch and mismatches fail; summary endpoints are Steps[0].Materials / Steps[len-1].Products / the "
      "requested name; nothing that receives the verified link map up to and including the agreement check writes through it (effects analysis with the map as owned memory), except the sublayout replacement; the loops are exhaustive (the compare loop may range over the map or over its complete sorted key list); every counted sublayout is replaced by the summary of its own verification (shared R-C08-1/3); the link loader files one link per functionary key id under the exact glob (shared R-C02-5). Does not decide DeepEqual semantics or rule verdicts.", "4.5")
claim("C06", "SSA dominance facts (must-pass-through) + constant/time-layout table + branch polarity evaluation",
      "Decides: every later stage and success return is dominated by a successful expiry check of the verified layout; the check parses a "
      "constant full-UTC layout, propagates parse errors and fails for an expiry in the past; the expiry check is found by what it does (parses layout.Expires — directly or through a one-argument parse helper — as UTC, compares with the clock), and the reference time is time.Now() in the check or a parameter every call site fills with a fresh time.Now(). Does not decide clock behaviour.", "4.6")
claim("C08", "SSA shape analysis of VerifySublayouts + call-graph identity of the recursive entry point",
      "Decides: every Layout payload in the verified map is passed to the same verification entry point with exactly the parent layout's "
      "key of the counted functionary, the <step>.<8-char keyid> directory and the step name; its error fails; the summary replaces it. "
      "VerifySublayouts receives the directory this layout's own links were loaded from (shared option wiring R-C09-6); the summary endpoints are set for every layout with at least one step (length conditions evaluated at 1 and 0, shared R-C05-3); every authorized link reaches VerifySublayouts (no early exit of the per-link loop, shared R-C02-4). Does not decide termination on adversarial directory structures.", "4.8")
claim("C09", "SSA dominance facts (ordering) + shape analysis + who-may-call",
      "Decides: inspections run only after all step checks succeeded and success requires successful inspections and inspection rules; "
      "RunInspections runs every inspection's own command in order, fails on start failure and non-zero status; exit-status type agreement; "
      "materials before / products after the command; os/exec only via RunInspections->InTotoRun->RunCommand; the shared rule engine's MATCH guards, queue / consumption wiring and failing rule types (R-C03-4/5/6); the recorder's walk discipline (shared R-C13-3); every non-empty command reaches RunCommand; inspections record with sha256, no excludes, no strip prefixes; recording options in declared order (R-C13-7); exhaustive loops. Does not decide artifact recording.", "4.9")
claim("C14", "typestate over *exec.Cmd in SSA + def-use pairing of streams and keys + error-flow",
      "Decides: the two pipes of one Cmd are never drained sequentially in the waiting goroutine; Wait dominates success returns and follows "
      "reads; return-value/stdout/stderr derive from Wait/stdout/stderr respectively; empty command refused before indexing; a Start/Run error is returned unless it is an *exec.ExitError (disjunctive branch facts); no blocking drain under a mutex; no exec.Cmd option (WaitDelay, Cancel, CommandContext) that makes Wait fail for a command that exited; InTotoRun hands every non-empty command to RunCommand (control-dependent only on the emptiness test and earlier errors, shared R-C09-4); the status conversion returns 0, -1 or the unmodified WaitStatus.ExitStatus(). Does not decide timing "
      "or signal exits.", "4.14")
claim("C02", "SSA guarded-store analysis (dominance facts keyed by value identity) + branch normal form + map-order analysis + error-flow",
      "Decides: a link is stored in the verified map only under a successful VerifySignature with layout.Keys[id] for an id of the current step's "
      "PubKeys equal to the map key, or with the link's own certificate after a successful CheckCertConstraints of the current step and with the "
      "certificate's own key id as map key; threshold comparison fails iff len < threshold, for every step; loader keys files by their own signature "
      "selected by file-name prefix and skips garbage; the guards are also found inside an unexported helper whose nil result dominates the store (guard frames); the certificate route trusts only the layout's roots: both certificate pools are non-nil on every success return and the root pool is fed from layout.RootCas only (shared R-C07-3/4); the loader's file-name trimming is the inverse of the naming format (shared R-C20-3); checkRoots passes (root pool, intermediate pool) in that order (shared R-C07-2). Does not decide the cryptography or constraint semantics.", "4.2")
claim("C10", "map-order independence analysis (A3) + interprocedural effects/alias analysis (A4) + hidden-input reachability",
      "Decides: no range over a Go map on the verification paths leaks iteration order (loop-carried state, early element exit, unsorted accumulation, "
      "insertion into the ranged map); no write through memory reachable from the entry points' parameters; time/env/randomness only in the expiry check; accumulation kept in an address-taken variable is tracked too and a sort only counts if its comparison function compares its two elements; "
      "no mutable package state. A4 passes the content bits of a local variable along with a pointer to it (two write sites reviewed for struct-level taint imprecision). Does not decide determinism of the file system, commands or crypto/x509.", "4.10")
claim("C16", "global-write analysis over SSA (package-level state, process-global mutators, shared results)",
      "Decides a sufficient structural condition: no package-level variable of in_toto/internal/spiffe is written or written through outside init, no "
      "process-global mutators are called, dependency globals reached are read-only, no function returns package-level memory; sync.Map/Pool/Mutex/Once/atomic operations and channel send/receive/select on package-level variables count as shared state (stronger than the property: a correct pool would be reported too). No exported function writes through its slice/map/pointer parameters (effects analysis), except two reviewed pipeline stages. Does not "
      "decide races inside the runtime/stdlib.", "4.16")
claim("C03", "keyword/grammar table agreement + per-arm facts on phi edges + guarded-store analysis in the MATCH helper + error-flow",
      "Decides: parser, interpreter and spec keyword sets agree; the parser's MATCH grammar table (lengths, keyword positions, extracted fields) and the "
      "length-2 rule for generic rules; only DISALLOW/REQUIRE fail; the queue is live and updated on every path; each rule type consumes the right set "
      "(created/deleted/modified defined correctly); MATCH consumes only under pattern match, destination existence, hash equality and prefix membership. "
      "Every item / round / rule / artifact loop is left only by exhaustion or failure (no rule is skipped); the glob matcher's structural rules (star scan, non-empty reads, RuneError width) are shared from C17. Does NOT decide agreement of the interpreter with the spec on all rule programs (set algebra, glob semantics).", "4.3")
claim("C04", "sibling agreement of Sign/VerifySignature over SSA def-use + key-type table agreement + constant tables",
      "Decides: sign and verify use the same bytes and the same signer/verifier constructor per wrapper; signatures accumulate in both wrappers (the new list is a plain append to the whole previous list, directly or in one helper); hex "
      "codec pair and key id; key-type tables agree with matching constructors; wrapper detection and payload-type constant; package in_toto never base64-decodes envelope fields itself (who-may-call). Does not decide cryptographic soundness.", "4.4")
claim("C07", "struct-field coverage + closure/parameter provenance chains + dominance facts + option-literal inspection",
      "Decides: all six attribute checks are evaluated and accumulated, every constraint field is read; chain verification precedes root comparison "
      "with the captured pools; VerifyOptions uses exactly the two pool parameters; root pool fed only from layout.RootCas; any-of loop shape; "
      "attribute-to-certificate-field table; certificate URIs are compared in their exact (*url.URL).String form. Does not decide the value semantics of checkCertConstraint or crypto/x509.", "4.7")
claim("C11", "type-level JSON schema extraction compared with a frozen wire-format table + encoder provenance of the DSSE payload",
      "Decides: the JSON view of all metadata types equals the in-toto schema (names, omitempty, kinds, no custom marshalers); the legacy signable bytes are "
      "cjson.EncodeCanonical(Signed) unprocessed; the DSSE payload bytes come from encoding/json or from cjson only under json.Valid; strict decoding; cjson "
      "panics recovered; the required-member check refuses only absent keys (shared R-C12-2); the payload loader returns the decoded object unmodified (no store and no call that writes through it between Decode and return: A4). Does not decide injectivity or reference equality of canonical JSON.", "4.11")
claim("C12", "sibling cross-check of the two loaders + nil-dereference facts + static reachability of the validator family + constant tables",
      "Decides: both loaders nil-test raw parts, share the strict decoder and fail on its error; required-field check uses the decoded type and refuses a member only when its key is absent (null written by the writers loads back); unknown markers "
      "fail; writer/reader key agreement; every validator (incl. inspections) is wired from ValidateMetablock; format constants; constructors initialise the "
      "signature list; DSSE payload encoder provenance (shared R-C11-3); validator and verifier parse Expires with the same constant layout (shared R-C06-2); validator loops are exhaustive and an error kept across iterations is not overwritten by a later element. Does not decide round-trip equality or exactness of the validator.", "4.12")
claim("C17", "guarded-store facts + reachability + return-shape analysis of the matcher",
      "Decides only: a malformed pattern can not add to Filter's result; rule verification reaches no other matcher; error returns carry matched=false and "
      "only the bad-pattern sentinel; whole-name exhaustion and trailing-star shape; no '/' special-casing; scanner/matcher escape agreement; the star scan retries every byte offset and the name is not sliced otherwise; matchChunk reads the name only where it is known non-empty (flag-implied branch facts); utf8.RuneError is malformed only with width 1. The glob grammar itself is NOT decided.", "4.17")
claim("C18", "write-set / field-coverage analysis + constant regexp tree comparison + def-use single-pass check + A3 + A4",
      "Decides: exactly the six fields are rewritten, each from itself, once, for every element of the whole list (in place on a copy, or by value into a fresh list of the same length); pairs are (\"{\"+name+\"}\", value); name pattern equals "
      "^[a-zA-Z0-9_-]+$ with failing mismatch; one Replacer, one Replace per original string, applied to every element on every path (no unsubstituted element is appended); empty dictionary returns the input; order independence; "
      "no write through the argument's memory. Does not decide strings.Replacer's algorithm.", "4.18")
claim("C13", "constant table + SSA provenance of hashed bytes / digests + dominance facts over the walk callback + def-use of the three-way difference",
      "Decides: hash algorithm table; RecordArtifact hashes the bytes of the named file (os.ReadFile or io.ReadAll of os.Open), rewrites only under lineNormalization and only with the CRLF->LF, CR->LF replacement pair (directly or in one helper), fails on unknown algorithms, "
      "stores each digest under the name whose constructor computed it; walk discipline (errors returned, exclusion before hashing, dir symlinks only on request, "
      "cycle and collision errors, ToSlash, fresh visited set); snapshot discipline of run/record start/stop; InTotoMatchProducts' three results (compared hash maps allocated per name); the recording options reach RecordArtifacts in their declared positions in InTotoRun / InTotoRecordStart / InTotoRecordStop (sibling agreement). Does NOT decide "
      "completeness of the walk, symlink semantics on real trees or digest values.", "4.13")
claim("C15", "panic-site obligation analysis over SSA: explicit panics, unchecked assertions, index/slice bound idioms with length facts (disjunctive, phi-aware, callee summaries), nil-deref and nil-map facts",
      "Decides absence of reachable, unguarded panic sites in in_toto code reachable from the loading/validating/signing/verifying entry set: every explicit panic, "
      "unchecked assertion, index/slice expression, raw-part / inner-envelope dereference and map write is discharged by a dominating guard on the same value or a "
      "reviewed entry with a checked fact; asserting securesystemslib constructors only after material validation. Termination is NOT decided beyond evident loop counters "
      "and the pipe-deadlock clause.", "4.15")
claim("C19", "map-literal / type-switch table extraction + provenance of key halves + parser-set check",
      "Decides: key-id preimage members and their sources (no private material), sha256+hex; per parsed type the right public/private bytes and key-type constant; "
      "default scheme table; private half only under the length guard from private bytes with the right PEM type, KeyVal rebuilt; exactly five accepted encodings tried on the decoded bytes whatever the PEM label says, nil "
      "PEM block refused; SPIFFE conversion shape; no package-level default list is shared between loaded keys (shared R-C16-4). Does not decide id distinctness or sign/verify capability.", "4.19")
claim("C20", "cobra command-literal and flag-registration extraction + def-use of package variables into library parameters + error-flow + constant format agreement",
      "Decides: commands attached and RunE; every library error returned; Execute => non-zero exit; match-products exit condition; flag->variable table, required flags, path-list flags registered as string arrays (no CSV splitting), "
      "variables passed to the right library parameters; link naming formats agree with the loader; key loaded before use and certificate attached; sign/verify command "
      "shapes. Does not decide end-to-end acceptance of honest chains.", "4.20")

# round 7 of the seeded changes ("two places that each look fine alone")
also("C02", "A key's certificate string is only ever the PEM of the block its public key was parsed from (R-C02-6, who-may-write on KeyVal.Certificate below the threshold check); the verifier for a key is built from that key's own material without package-level state (shared R-C04-6); the metadata loaders share no error-returning function with the validators, so an honest link is never dropped at load time for a semantic reason (shared R-C05-6).")
also("C04", "The payload loader returns the decoded object unmodified, so the legacy wrapper re-canonicalises what was signed after a dump / load round trip (shared R-C11-6).")
also("C05", "The metadata loaders share no error-returning function with the validators: LoadLinksForLayout ignores files that do not load, so a loader that refuses for semantic reasons would drop a signed link before the agreement check (R-C05-6, call-graph disjointness).")
also("C06", "Nothing on the load / verification paths writes Layout.Expires and the loader returns the decoded layout unmodified (R-C06-5 who-may-write, shared R-C11-6): the date checked is the signed one.")
also("C08", "The verifier for a key is built from that key's own material without package-level state, so a key id used as a label in one sublayout cannot select another sublayout's key (shared R-C04-6).")
also("C15", "decodeAndParse validates the first PEM block, the one the securesystemslib constructors parse and type-assert unchecked (shared R-C19-4).")
also("C16", "A function that returns memory reachable from a package-level variable of any package (also a dependency's exported default list) is reported (R-C16-4).")
also("C19", "No function writes through a Key it was handed (by value, in a slice or a map); only the pointer-receiver loader methods write a key's fields, so the preimage of a key id is stable after loading (R-C19-8, effects analysis with every Key parameter as owned memory).")
also("C20", "loadKeyFromDisk returns success only on paths on which a LoadKeyDefaults of --key or --cert succeeded (R-C20-8: path-sensitive enumeration over emptiness of the two options, phi-carried flags included).")
also("C13", "Name sets are recognised by what they contain (the key list of a map, built in place or by a key-list helper) rather than by the helper's name (R-C13-5).")
also("C03", "getEsc refuses an empty rest, a bare '-' and a bare ']' inside a character class (R-C17-10, shared with C17); the path sets are recognised structurally (key lists, optionally cleaned by path.Clean).")
also("C17", "getEsc refuses an empty rest, a bare '-' and a bare ']' inside a character class, which matchChunk's range loop relies on (R-C17-10).")

# round 8 of the seeded changes ("looks like a behaviour-preserving refactoring")
also("C01", "The guard, payload extraction and expiry check may sit in one unexported head helper shared by both entry points: it is accepted only if every success return of the helper lies under the guard's nil-error edge and nothing inside it consumes the Metadata before the guard; access-path rules see through helpers that hand back one fixed view of their arguments (transparent helpers).")
also("C02", "Evaluating a step's certificate constraints and keys writes nothing through the layout (shared R-C10-2; in-place helpers of package slices / maps count as writes).")
also("C03", "Inside the rounds no path set or queue is edited in place (Set.Add / Remove, delete, clear, maps.DeleteFunc): the queue is the round's path set itself and feeds the other round's classification (R-C03-5); the rounds table is recognised as map or struct records with roles by type; an escaped metacharacter is a literal (shared R-C17-11).")
also("C04", "Dump replaces the file: os.WriteFile / os.Create, or os.OpenFile whose constant flags contain O_TRUNC (shared R-C12-7).")
also("C06", "The expiry check inside a head helper counts only if every success return of the helper lies under its nil-error edge (an overwritten error is reported).")
also("C07", "Evaluating a certificate constraint does not consume it (shared R-C10-2).")
also("C08", "A sublayout enters the verified map only under the authorization guards of the threshold check (shared R-C02-1).")
also("C10", "A3.6: an insertion into another map under a key computed from the current key is order dependent unless the transform is reviewed as injective or the stored value does not depend on the element.")
also("C11", "Envelope.Sign signs DecodeB64Payload() of the receiver's current envelope, directly or through a helper that only forwards to it (shared R-C04-1): no remembered copy of the payload bytes.")
also("C12", "Dump replaces the file (R-C12-7); the wrapper's two parts are found by exact member name in a map[string]*json.RawMessage, not through struct tags, in the loader or in one shared parsing helper (R-C12-1).")
also("C14", "Nothing below RunCommand re-encodes the captured output (no encoding/*, UTF-8 validation, quoting, trimming or case helpers): stdout / stderr are the bytes written (R-C14-8).")
also("C15", "No module function below the entry points calls itself from inside a loop, except the reviewed recursions bounded by the directory tree (R-C15-7): exponential backtracking needs exactly that shape.")
also("C16", "No function literal that is returned or stored writes a variable it captured (R-C16-6).")
also("C17", "No comparison with '[' or '?' is reachable, within one iteration of matchChunk, from the branch that consumed a backslash (R-C17-11).")
also("C19", "The key-id preimage may be a struct literal: its JSON view has exactly the four members, none omitted when empty, keyval sets only public (R-C19-1); no returned closure writes captured state (shared R-C16-6).")
also("C20", "A key-loading helper of the sign command fails only with the loader's own error (R-C20-4): sign --verify accepts whatever key LoadKeyDefaults accepts.")

# round 9 of the seeded changes ("shows only when something fails at a particular point")
also("C01", "The command-line verifier hands every --layout-keys file to the library under its own key id and fails on one it cannot load (shared R-C20-6). A1 also reports a result used before its error was examined and a deferred function that overwrites the error result.")
also("C02", "In LoadLinksForLayout the error of LoadMetadata never reaches a failing continuation (R-C02-7): unreadable, foreign or garbage neighbours do not stop honest links from counting.")
also("C10", "A loop-carried flag in a map range must be monotone; one that is overwritten per element holds the outcome of the element visited last (A3.1).")
also("C11", "SetPayload stores into the envelope only after its last point of failure (R-C11-7).")
also("C12", "A1 reports a deferred function literal that overwrites the error result without an err == nil guard (a write error replaced by the nil of Close) and a result used before its error was examined.")
also("C13", "A1.u: the merged result of the recursive walk is used only where its error was examined.")
also("C14", "RunCommand has no failing return after a successful Start (R-C14-9).")
also("C15", "R-C15-8: below the entry set no reference-typed result of a fallible call is used where the call's error has not been examined (a nil Metadata from a failed sub-verification is not dereferenced).")
also("C17", "The failure flag of matchChunk is sticky: every value flowing back into it is the flag itself or true (R-C17-12).")
also("C20", "A1 covers deferred overwrites of the error result in the command helpers; the dumped file may be written through a helper that dumps to a temporary name and renames it to the constructed name (R-C20-3).")

# round 10 of the seeded changes ("a misused library contract")
also("C01", "Every flag of the verify command has a destination variable of its own (shared R-C20-2): two slice flags bound to one variable overwrite each other's values.")
also("C04", "No success return of Envelope.SetPayload skips the re-encoding (R-C11-8): old payload bytes and signatures are never kept for an object that was changed in place.")
also("C07", "The --intermediate-certs files reach the library as read (shared R-C20-9); caller intermediates are loaded with AppendCertsFromPEM (every block of a bundle).")
also("C08", "The links of a (sub)layout are the files matching the naming format in its own directory, listed with filepath.Glob; a walking or hand-filtered listing is reported (shared R-C02-5).")
also("C09", "What an inspection records is the digest of the whole file as read by os.ReadFile / io.ReadAll (shared R-C13-2; an unknown streaming pipeline is UNDECIDED).")
also("C11", "loadPayload hands the complete payload to json.Unmarshal, whose error fails, before any success return (R-C11-9: a json.Decoder alone accepts trailing data); SetPayload always re-encodes (R-C11-8).")
also("C12", "The payload loader refuses trailing data (shared R-C11-9).")
also("C14", "The two capture buffers do not share an allocation (R-C14-10).")
also("C20", "Every flag has a destination variable of its own (R-C20-2); each element of the intermediatePems argument is the unmodified result of reading one --intermediate-certs file (R-C20-9).")

# round 11 of the seeded changes ("needs a multi-step history")
for _p in ["C01","C02","C03","C04","C05","C06","C07","C08","C09","C11","C12","C14","C15","C17","C18","C19"]:
    also(_p, "The library keeps no state between calls (shared R-C16-1): no package-level variable, cache, memo or pool is written outside initialisation, so a later call never meets what an earlier call left behind.")
also("C01", "Every successful load derives the key id from the loaded material (shared R-C19-9): two keys loaded into one Key variable cannot end up under one id.")
also("C08", "The expiry check of a sublayout compares with a clock reading of its own (shared R-C06-2).")
also("C10", "A3.7: a map created before a map-range loop that is updated per element and also read inside the loop makes an iteration depend on the ones before it.")
also("C15", "R-C15-9: a method is called on the interface result of a map lookup only under a checked comma-ok, a nil test, or a key that provably comes from that map's own keys in the same iteration (a key list carried around an outer loop does not count); the two lookups of GetSummaryLink rest on the reviewed pipeline invariant that ReduceStepsMetadata stores an entry per step.")
also("C19", "R-C19-9: every success return of setKeyComponents lies behind a successful generateKeyID(), and every store into KeyID is the digest computed in that call.")

# round 12 (one-token edits)
for _p in ("C03", "C19"):
    also(_p, "A2 also covers functions without error result: an early exit that runs into the same return with the same values as exhaustion carries no answer and is reported; loops whose body always leaves are judged by the edges leaving the body region.")
also("C05", "The summary link is named by a string parameter of the entry point that is handed to no other stage or file-system call (shared R-C09-6).")
also("C07", "R-C08-6 (shared): the recursion of VerifySublayouts hands down the caller's intermediates; R-C20-10 (shared): the intermediates list of the verify command is not made with a length and then appended to.")
also("C08", "R-C08-6: the recursive call receives VerifySublayouts' own [][]byte and bool parameters; R-C05-1 (shared): the entry point it recurses into evaluates step rules on the reduced links and inspection rules on the inspection results.")
also("C09", "R-C09-8: on every path of RunCommand to the start of the command on which the run directory may be non-empty, Cmd.Dir was set to it (path-sensitive enumeration).")
also("C12", "R-C12-8: the result of an iterator advance (reflect.MapIter.Next, bufio.Scanner.Scan) is the exit test of a loop.")
also("C13", "Path flags of the commands are StringArray flags (shared R-C20-2): a path with a comma reaches RecordArtifacts as given.")
also("C14", "R-C09-8 (shared): the command starts in the requested directory; R-C09-2 / R-C09-3 (shared): the consumer of the by-products compares the stored return value itself, so an absent value is not taken for exit status 0.")
also("C16", "R-C16-7: the result of append(x.f, ...) goes back into the field it was read from; no signature list is grown in another object's backing array.")
also("C04", "R-C16-7 (shared): Envelope.Sign / Metablock.Sign never append onto the signature array of another object.")
also("C17", "R-C17-13: the guard of the escape skip in scanChunk is, in integer-linear normal form, exactly i+2 <= len(pattern).")
also("C18", "R-C18-8: every success path of SubstituteParameters with a possibly non-empty dictionary runs through the loop over the steps and the loop over the inspections (or the helper that holds it).")
also("C20", "R-C20-10: no slice in cmd / in_toto / internal/spiffe is made with a non-zero length and then only appended to.")
also("C15", "Index-below-length facts are decided on the integer-linear normal form of the comparison (i < len(x)-1 and i+1 < len(x) are the same fact); x[:len(x):len(x)] is a bound idiom.")

# round 13 (data, declarations, types)
also("C04", "The JSON view of the metadata types equals the frozen wire schema (shared R-C11-1): what is signed after a load is what was signed before.")
also("C08", "The signed bytes of a (sub)layout follow the frozen wire schema (shared R-C11-1).")
also("C05", "The hex validator on the signature path accepts both cases (shared R-C12-5): a counted link is not dropped for the spelling of its signer's key.")
also("C02", "The hex validator on the signature path accepts both cases (shared R-C12-5).")
also("C09", "Inspection rules are unpacked by the grammar of R-C03-2 (shared): patterns are taken from the rule as written.")
also("C15", "R-C15-2 compares the dispatch table in front of the asserting constructors with the validator's: no key-type label reaches a constructor unexamined. R-C17-15 (shared): no narrow loop counter.")
also("C17", "R-C17-14: the in-class state of scanChunk takes two constant values and is never computed from its previous value. R-C17-15: no loop-carried integer stepped by a constant is narrower than 32 bits.")
also("C03", "R-C17-14 (shared with C17): classes do not nest in scanChunk.")
also("C18", "R-C18-2 also requires the replacer's pair list to start empty and to receive nothing but the pairs.")
also("C19", "R-C19-3 also requires that the stored key halves run through the reviewed encoding calls only: nothing is applied to the raw key bytes.")
also("C20", "R-C20-2 also requires flag registrations that share a destination variable to agree on the default.")

# deciding methods added after the first build round (appended to the technique of each check)
def tech(pid, text):
    technique, t, ref = CLAIMED[pid]
    CLAIMED[pid] = (technique + " + " + text, t, ref)

for _p in ("C01", "C02", "C03", "C05", "C07", "C09", "C12", "C13", "C18", "C19", "C20"):
    tech(_p, "exhaustive-loop analysis (A2: early exits must fail or carry an answer)")
for _p in ("C01", "C02", "C03", "C04", "C05", "C06", "C07", "C08", "C09", "C11", "C12", "C14", "C15", "C17", "C18", "C19"):
    tech(_p, "global-write analysis (no state kept between calls)")
tech("C05", "argument wiring of the entry points' options")
tech("C08", "one-to-one parameter pass-through of the recursion + shared schema table")
tech("C09", "bounded path-sensitive enumeration of RunCommand (run directory)")
tech("C14", "bounded path-sensitive enumeration of RunCommand (run directory) + use-before-check / deferred-overwrite error analysis")
tech("C12", "iterator-drives-loop check")
tech("C15", "integer-linear normal form of bound facts + key provenance of map lookups + recursion census + counter-width check")
tech("C16", "append-aliasing analysis of field slices + effects analysis of exported reference parameters")
tech("C17", "integer-linear normal form of the scan guards + value-set analysis of loop-carried state + counter-width check")
tech("C18", "bounded path-sensitive enumeration of SubstituteParameters + append-chain provenance of the replacer list")
tech("C19", "call-chain allow-list between key bytes and stored halves")
tech("C20", "bounded path-sensitive enumeration (key sources) + made-with-length dataflow + default agreement of shared flag variables")
tech("C04", "append-aliasing analysis of signature lists + shared schema table")
tech("C13", "StringArray flag kinds for path lists")

# round 14 (feature additions)
also("C16", "R-C16-1 also follows module callees that are handed memory hanging off a package-level variable (A4 effects analysis): a method that writes through its receiver, called on a package-level sentinel, writes the global.")
also("C05", "Stages are also found inside exported wrappers that are not pipeline stages themselves (helper frames), so the wiring clauses hold for bundled stages.")
also("C09", "Stages are also found inside exported wrappers that are not pipeline stages themselves (helper frames).")
also("C03", "Hash objects are compared by reflect.DeepEqual, maps.Equal or a module function with the checked shape of an equality predicate on two maps (length test, range, comma-ok lookup, value comparison, false on every early exit).")
also("C13", "The cycle error may be the sentinel or a wrapper whose Is method compares with it.")

# round 15 (environment, shapes of names and files) and the independent refactorings
for _p in ("C12", "C04", "C02", "C14", "C09", "C01", "C19"):
    also(_p, "R-C12-9: the functions that open a file or start a command in a directory named by a parameter hand that very name to the operating system - no lexical clean-up (filepath.Clean / Abs / EvalSymlinks) and no os.Lstat of it, also inside the unexported helpers the name is passed to.")
also("C11", "R-C11-10: nothing LoadLinksForLayout hands a loaded link (or a part of it) to writes through it before the signatures are checked (A4 effects analysis).")
also("C18", "R-C18-9: the substitution helpers append the replacer's output untouched (no clean-up of rule elements after substitution).")
also("C20", "R-C20-11: every failing return of the command handlers carries the error of a call; the commands add no verdicts of their own (reviewed usage errors excepted).")
also("C10", "A3.1 recognises the minimum / maximum scan over a map as order-insensitive.")
tech("C12", "name-as-given check of file and directory parameters across helper frames")
tech("C11", "effects analysis of the callees of the link loader")
also("C15", "The reviewed 'step has no links' panic is also accepted inside an unexported lookup helper (every return is m[k] of its parameters) that only the two reviewed functions call with (links, step.Name); length facts follow the result of an unexported helper whose every return excludes the short lengths; the ed25519 length checks may sit in a helper that is handed the KeyVal.")
also("C05", "The per-step link map may be obtained through such a lookup helper; R-C05-5 is checked at every frame level of a reduce-then-verify helper.")
also("C04", "Signer and signed bytes may be handed back unchanged by a transparent helper that was given the key parameter and the receiver.")
also("C01", "Verifier and verified bytes may be handed back unchanged by a transparent helper that was given the key parameter and the receiver.")
also("C20", "The three operations of sign may sit in unexported helpers whose error is what sign returns (parameters mapped to arguments); key and key-layout may load through an unexported (Key, error) loader helper.")
also("C13", "The ToSlash re-keying loop and the exclusion / directory tests of the walk callback may sit in unexported helpers (a skip predicate answers false with a nil error only where GitIgnore and IsDir are false).")
also("C14", "The by-product map may be assembled by a helper that is handed the values; the exit status may be handed back by an unexported (int, bool) helper whose returns are walked.")
also("C09", "RunCommand may sit behind a run-if-any helper that returns its results as they are; the run directory may be checked by a helper whose error refuses; the wrapper kind may be handed back by a prologue helper.")
also("C07", "The certificate under test may be parsed by an unexported helper that was given the key.")
also("C01", "The selection by key id may sit in a helper that is handed (receiver.Signatures, keyID) and whose results are returned as they are.")
also("C15", "Key material validation is also recognised as one validateKeyVal call after a switch that only sorts out unknown key types, with the PEM halves parsed and matched in helpers (matcher possibly passed as a function value) and the expected type chosen per case into one variable; a range over a fixed-size array is a bound idiom.")
also("C10", "A3.3 accepts an unordered list that an unexported helper only returns when every call site hands it straight to NewSet.")
