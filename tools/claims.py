claim("C01", "SSA dominance facts (must-pass-through) + error-flow analysis + field-ownership + effects analysis",
      "Decides: every layout-trusting call and every success return of both entry points is dominated by a successful "
      "VerifyLayoutSignatures(env, keys) on the unmodified parameters; the guard's shape (non-empty key set, all keys, errors fail); "
      "the enforced Layout derives from GetPayload() of the verified object; signature is bound to the enforced bytes per wrapper; "
      "strict decoding; no dropped errors; no write through the caller's layout. Does not decide cryptographic soundness.", "4.1")
claim("C05", "SSA def-use wiring + path facts over the compare loop + access-path tables",
      "Decides: only verified links flow through sublayouts/reduce/rules/summary; every link of a step is compared on materials and "
      "products on every path to the loop latch and mismatches fail; summary endpoints are Steps[0].Materials / Steps[len-1].Products / the "
      "requested name. Does not decide DeepEqual semantics or rule verdicts.", "4.5")
claim("C06", "SSA dominance facts (must-pass-through) + constant/time-layout table + branch polarity evaluation",
      "Decides: every later stage and success return is dominated by a successful expiry check of the verified layout; the check parses a "
      "constant full-UTC layout, propagates parse errors and fails for an expiry in the past. Does not decide clock behaviour.", "4.6")
claim("C08", "SSA shape analysis of VerifySublayouts + call-graph identity of the recursive entry point",
      "Decides: every Layout payload in the verified map is passed to the same verification entry point with exactly the parent layout's "
      "key of the counted functionary, the <step>.<8-char keyid> directory and the step name; its error fails; the summary replaces it. "
      "Does not decide termination on adversarial directory structures.", "4.8")
claim("C09", "SSA dominance facts (ordering) + shape analysis + who-may-call",
      "Decides: inspections run only after all step checks succeeded and success requires successful inspections and inspection rules; "
      "RunInspections runs every inspection's own command in order, fails on start failure and non-zero status; exit-status type agreement; "
      "materials before / products after the command; os/exec only via RunInspections->InTotoRun->RunCommand. Does not decide artifact recording.", "4.9")
claim("C14", "typestate over *exec.Cmd in SSA + def-use pairing of streams and keys + error-flow",
      "Decides: the two pipes of one Cmd are never drained sequentially in the waiting goroutine; Wait dominates success returns and follows "
      "reads; return-value/stdout/stderr derive from Wait/stdout/stderr respectively; empty command refused before indexing. Does not decide timing "
      "or signal exits.", "4.14")
claim("C02", "SSA guarded-store analysis (dominance facts keyed by value identity) + branch normal form + map-order analysis + error-flow",
      "Decides: a link is stored in the verified map only under a successful VerifySignature with layout.Keys[id] for an id of the current step's "
      "PubKeys equal to the map key, or with the link's own certificate after a successful CheckCertConstraints of the current step and with the "
      "certificate's own key id as map key; threshold comparison fails iff len < threshold, for every step; loader keys files by their own signature "
      "selected by file-name prefix and skips garbage. Does not decide the cryptography or constraint semantics.", "4.2")
claim("C10", "map-order independence analysis (A3) + interprocedural effects/alias analysis (A4) + hidden-input reachability",
      "Decides: no range over a Go map on the verification paths leaks iteration order (loop-carried state, early element exit, unsorted accumulation, "
      "insertion into the ranged map); no write through memory reachable from the entry points' parameters; time/env/randomness only in the expiry check; "
      "no mutable package state. Does not decide determinism of the file system, commands or crypto/x509.", "4.10")
claim("C16", "global-write analysis over SSA (package-level state, process-global mutators, shared results)",
      "Decides a sufficient structural condition: no package-level variable of in_toto/internal/spiffe is written or written through outside init, no "
      "process-global mutators are called, dependency globals reached are read-only, no exported function returns package-level memory. Does not "
      "decide races inside the runtime/stdlib or on shared arguments.", "4.16")
for i in [3,4,7,11,12,13,15,17,18,19,20]:
    na("C%02d" % i, "check under construction in this commit; see DESIGN.md section 4 for the planned structural clauses")
