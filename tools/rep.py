#!/usr/bin/env python3
"""rep.py <file-relative-to-repo> [occurrence]: replace OLD by NEW in /repo/<file>; stdin = OLD + '\n=====\n' + NEW. For building mutants only."""
import sys, os
rel = sys.argv[1]; occ = int(sys.argv[2]) if len(sys.argv) > 2 else 0
root = os.environ.get("REPO", "/repo")
old, new = sys.stdin.read().split("\n=====\n")
if new.endswith("\n") and not old.endswith("\n"): new = new[:-1]
p = os.path.join(root, rel); src = open(p).read(); n = src.count(old)
if n == 0: sys.exit("OLD not found in %s" % rel)
if n > 1 and occ == 0: sys.exit("OLD occurs %d times; give occurrence" % n)
idx = -1
for _ in range(max(occ, 1)): idx = src.index(old, idx + 1)
open(p, "w").write(src[:idx] + new + src[idx + len(old):])
