#!/usr/bin/env python3
"""seed_table.py: print the markdown table of /verif/seeded/* (what was changed, what it needs, which checks report it) from meta.json / result.json."""
import json, glob, os
print("| seeded change | property | what was changed | what it needs to manifest | reported by (property: rules) |")
print("|---|---|---|---|---|")
for d in sorted(glob.glob("/verif/seeded/*")):
    if not os.path.isdir(d):
        continue
    m = json.load(open(d + "/meta.json"))
    ev = m.get("evaluation", {})
    rep = ev.get("checks_that_report_it", {})
    own = m.get("property", "")
    def clip(s, n):
        s = " ".join(str(s).split()).replace("|", "/")
        return s if len(s) <= n else s[: n - 1] + "…"
    order = sorted(rep, key=lambda k: (k != own, k))
    cell = ", ".join("%s%s: %s" % ("**" if k == own else "", k + ("**" if k == own else ""), "/".join(r for r in rep[k])) for k in order) or "(none)"
    print("| `%s` | %s | %s | %s | %s |" % (os.path.basename(d), own, clip(m.get("summary", ""), 260), clip(m.get("needs", ""), 220), cell))
