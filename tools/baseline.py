#!/usr/bin/env python3
"""Runs /repo's test suite offline (no hooks exist, so 'guard off' is the plain build) and compares the set of
passing tests with the stable baseline in /root/.vp/BASELINE.json. Exit 0 iff every stable test passes."""
import json, os, subprocess, sys
repo = sys.argv[1] if len(sys.argv) > 1 else "/repo"
env = dict(os.environ, GOFLAGS="-mod=mod", GOPROXY="off", GOSUMDB="off", GOTOOLCHAIN="local")
env.pop("GOWORK", None)
p = subprocess.run(["go", "test", "-json", "-vet=off", "-count=1", "-timeout", "25m", "./..."], cwd=repo, env=env,
                   stdout=subprocess.PIPE, stderr=subprocess.DEVNULL, text=True)
passed, failed = set(), set()
for line in p.stdout.splitlines():
    try:
        ev = json.loads(line)
    except Exception:
        continue
    if ev.get("Test") and ev.get("Action") in ("pass", "fail"):
        name = "%s::%s" % (ev["Package"], ev["Test"])
        (passed if ev["Action"] == "pass" else failed).add(name)
base = json.load(open("/root/.vp/BASELINE.json"))
stable = set(base["stable_pass"])
missing = sorted(stable - passed)
print("passed=%d failed=%d stable_baseline=%d missing_from_pass=%d" % (len(passed), len(failed), len(stable), len(missing)))
for m in missing:
    print("  NOT PASSING:", m)
unexpected = sorted(failed - set(base.get("always_fail", [])))
for m in unexpected:
    print("  FAILED:", m)
sys.exit(1 if missing else 0)
