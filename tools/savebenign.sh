#!/bin/sh
# savebenign.sh <props> <name>: save the diff of the scratch worktree /tmp/bw (git -C /repo worktree add --detach /tmp/bw HEAD) as a benign variant, check build + pinned suite + the named checks on it, restore the worktree
# savebenign.sh <props> <name>: save /tmp/bw diff as benign variant; verify build+suite; run the checks; restore
export GOFLAGS=-mod=mod GOPROXY=off GOSUMDB=off GOTOOLCHAIN=local; unset GOWORK
cd /tmp/bw && go build ./... 2>&1 | grep -v WARNING
go vet ./in_toto 2>&1 | grep -v WARNING | head -5
python3 /verif/tools/baseline.py /tmp/bw | head -2
git -C /tmp/bw diff > /verif/benign/$1__$2.patch
for p in $(echo $1 | tr '+' ' '); do /verif/bin/intotocheck -property $p -repo /tmp/bw -no-evidence 2>&1 | grep -v WARNING | grep -v "^VIOLATION" | tail -4 | cut -c1-300; done
git -C /tmp/bw checkout -- .
