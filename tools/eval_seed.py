#!/usr/bin/env python3
"""eval_seed.py <seed-dir> [--props C01,C02|all]
Confirms a seeded change (patch.diff + demo test) against scratch copies of /repo and runs the checks on the patched copy.
Steps: patched copy builds; pinned suite still passes; demo FAILS with the patch and PASSES without; then every selected
check is run with -repo <patched copy> -no-evidence and the rules that fire are listed. Writes <seed-dir>/result.json.
Scratch copies live under $TMPDIR and are removed at the end."""
import json, os, re, shutil, subprocess, sys, tempfile, glob

seed = os.path.abspath(sys.argv[1])
props = "all"
if "--props" in sys.argv:
    props = sys.argv[sys.argv.index("--props") + 1]
env = dict(os.environ, GOFLAGS="-mod=mod", GOPROXY="off", GOSUMDB="off", GOTOOLCHAIN="local")
env.pop("GOWORK", None)

def run(cmd, cwd=None, timeout=1500):
    p = subprocess.run(cmd, cwd=cwd, env=env, shell=isinstance(cmd, str), stdout=subprocess.PIPE, stderr=subprocess.STDOUT, text=True, timeout=timeout)
    out = "\n".join(l for l in p.stdout.splitlines() if "WARNING" not in l)
    return p.returncode, out

def copy_repo(dst):
    subprocess.run(["rsync", "-a", "--exclude", ".git", "--exclude", "_seed", "/repo/", dst + "/"], check=True)

res = {"seed": seed}
tmp = tempfile.mkdtemp(prefix="evalseed.")
try:
    patched, clean = os.path.join(tmp, "patched"), os.path.join(tmp, "clean")
    copy_repo(patched); copy_repo(clean)
    rc, out = run(["patch", "-p1", "-s", "-i", os.path.join(seed, "patch.diff")], cwd=patched)
    res["patch_applies"] = rc == 0
    if rc != 0:
        res["patch_output"] = out[-2000:]
        raise SystemExit
    rc, out = run("go build ./...", cwd=patched)
    res["builds"] = rc == 0
    if rc != 0:
        res["build_output"] = out[-2000:]
        raise SystemExit
    rc, out = run(["python3", "/verif/tools/baseline.py", patched])
    res["suite_passes"] = rc == 0
    res["suite_summary"] = out.splitlines()[0] if out else ""
    if rc != 0:
        res["suite_output"] = out[-1500:]
    # demo
    demos = [f for f in glob.glob(os.path.join(seed, "*_test.go"))]
    res["demo_files"] = [os.path.basename(d) for d in demos]
    demo_ok_fail, demo_ok_pass = None, None
    if demos:
        for tree, expect in ((patched, "fail"), (clean, "pass")):
            names = []
            pkgdirs = set()
            for d in demos:
                src = open(d).read()
                pkg = re.search(r"^package\s+(\w+)", src, re.M).group(1)
                sub = {"in_toto": "in_toto", "in_toto_test": "in_toto", "cmd": "cmd", "spiffe": "internal/spiffe", "main": "."}.get(pkg, "in_toto")
                shutil.copy(d, os.path.join(tree, sub, "zz_seed_" + os.path.basename(d)))
                names += re.findall(r"^func (Test\w+)\(", src, re.M)
                pkgdirs.add("./" + sub if sub != "." else ".")
            pat = "^(" + "|".join(names) + ")$"
            race = ["-race"] if any("go test -race" in open(d).read() for d in demos) else []
            res["demo_race"] = bool(race)
            rc, out = run(["go", "test"] + race + ["-vet=off", "-count=1", "-timeout", "600s", "-run", pat] + sorted(pkgdirs), cwd=tree, timeout=1200)
            if expect == "fail":
                demo_ok_fail = rc != 0
                res["demo_with_patch"] = "FAIL" if rc != 0 else "PASS"
                res["demo_with_patch_tail"] = out[-1200:]
            else:
                demo_ok_pass = rc == 0
                res["demo_without_patch"] = "PASS" if rc == 0 else "FAIL"
                if rc != 0:
                    res["demo_without_patch_tail"] = out[-1200:]
            for f in glob.glob(os.path.join(tree, "*", "zz_seed_*")) + glob.glob(os.path.join(tree, "zz_seed_*")) + glob.glob(os.path.join(tree, "internal", "spiffe", "zz_seed_*")):
                os.remove(f)
    res["confirmed"] = bool(res.get("builds") and res.get("suite_passes") and demo_ok_fail and demo_ok_pass)
    # checks
    ids = ["C%02d" % i for i in range(1, 21)] if props == "all" else props.split(",")
    fired = {}
    for pid in ids:
        rc, out = run(["/verif/bin/intotocheck", "-property", pid, "-tier", "quick", "-repo", patched, "-no-evidence"])
        rules = sorted(set(re.findall(r"^  ((?:R-C\d+-\d+|A\d|VACUITY \S+)) ", out, re.M)))
        lines = [l.strip()[:300] for l in out.splitlines() if l.startswith("  ") and not l.startswith("  [")]
        if rc != 0:
            fired[pid] = {"rules": rules, "reports": lines[:6]}
    res["checks_fired"] = fired
finally:
    shutil.rmtree(tmp, ignore_errors=True)
    json.dump(res, open(os.path.join(seed, "result.json"), "w"), indent=1)
    print(json.dumps({k: v for k, v in res.items() if k not in ("demo_with_patch_tail",)}, indent=1)[:3000])
