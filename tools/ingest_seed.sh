#!/bin/sh
# ingest_seed.sh <worktree> <Cnn-slug> : copy a sub-agent's _seed into /verif/seeded/<Cnn-slug>, confirm it and run all checks on it.
set -e
d=/verif/seeded/$2
mkdir -p $d
cp $1/_seed/patch.diff $1/_seed/meta.json $d/ 2>/dev/null || true
cp $1/_seed/*_test.go $d/ 2>/dev/null || true
python3 /verif/tools/eval_seed.py $d > /tmp/eval-$2.log 2>&1 || true
python3 - "$d" <<'PY'
import json,sys,os
d=sys.argv[1]
r=json.load(open(d+'/result.json'))
m=json.load(open(d+'/meta.json')) if os.path.exists(d+'/meta.json') else {}
m['evaluation']={'confirmed_by':'tools/eval_seed.py on scratch copies of /repo: patched copy builds, pinned suite passes (180 stable tests), demo fails with the patch and passes without',
 'builds':r.get('builds'),'suite_passes':r.get('suite_passes'),'demo_with_patch':r.get('demo_with_patch'),'demo_without_patch':r.get('demo_without_patch'),
 'checks_that_report_it':{k:v['rules'] for k,v in r.get('checks_fired',{}).items()}}
json.dump(m,open(d+'/meta.json','w'),indent=1)
print(os.path.basename(d), {k:r.get(k) for k in ('confirmed','suite_passes','demo_with_patch','demo_without_patch')})
for k,v in r.get('checks_fired',{}).items(): print("   ",k, v['rules'], [x[:150] for x in v['reports'][:2]])
PY
