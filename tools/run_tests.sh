#!/bin/sh
# Runs the pinned test suite of /repo offline (guard off: there are no hooks). Prints a pass/fail summary.
export GOFLAGS=-mod=mod GOPROXY=off GOSUMDB=off GOTOOLCHAIN=local
unset GOWORK
cd "${1:-/repo}" && go test -vet=off -count=1 -timeout 25m ./... 2>&1 | grep -v WARNING
