#!/bin/sh
# ingest_round.sh <N> : ingest every finished /tmp/wt<N>-Cnn/_seed (meta.json present) that is not yet under /verif/seeded,
# with a slug derived from the summary; prints the evaluation lines. Usage: tools/ingest_round.sh 6
N=$1
for wt in /tmp/wt$N-C*; do
  [ -f $wt/_seed/meta.json ] || continue
  pid=$(basename $wt | sed "s/wt$N-//")
  slug=$(python3 - "$wt/_seed/meta.json" <<'PY'
import json,sys,re
m=json.load(open(sys.argv[1]))
s=m.get('summary','').lower()
words=[w for w in re.findall(r'[a-z0-9]+',s) if w not in ('the','a','an','in','of','to','and','is','now','no','longer','its','it','that','this','was','were','with','for','on','by','as','at','go','toto','so','which','be','are','from','into','instead','but','when','one','new','only','function','file')]
print('-'.join(words[:6])[:60])
PY
)
  id="$pid-r$N-$slug"
  ls -d /verif/seeded/$pid-r$N-* >/dev/null 2>&1 && continue
  echo $id
done | xargs -P 5 -I{} sh -c 'id={}; pid=$(echo $id | cut -c1-3); sh /verif/tools/ingest_seed.sh /tmp/wt'$N'-$pid $id 2>&1 | cut -c1-330'
