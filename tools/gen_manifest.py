#!/usr/bin/env python3
"""Generates /verif/MANIFEST.json from the table below (single source of truth for what is claimed)."""
import json, os

ENV = "GOFLAGS=-mod=mod GOPROXY=off GOSUMDB=off GOTOOLCHAIN=local GOWORK=off"
TRUST = ("Trusted: Go type checker, go/ssa + VTA call graph (x/tools v0.29.0); Go stdlib, crypto/*, go-securesystemslib and cobra "
         "beyond the sites examined; frozen spec tables in the checker. The check decides the listed structural clauses "
         "(necessary conditions of the property), not the behavioural statement; see DESIGN.md section 4 'Not decided'.")

# id -> (technique, text, design_ref) ; None => not applicable (reason)
CLAIMED = {}
NA = {}

def claim(pid, technique, text, ref):
    CLAIMED[pid] = (technique, text, ref)

def na(pid, reason):
    NA[pid] = reason

def also(pid, text):
    """append a sentence to an existing claim (before its closing 'Does not decide' sentence, if any)"""
    technique, old, ref = CLAIMED[pid]
    i = old.rfind(" Does not decide")
    CLAIMED[pid] = (technique, (old[:i] + " " + text + old[i:]) if i >= 0 else old + " " + text, ref)

exec(open(os.path.join(os.path.dirname(__file__), "claims.py")).read())

checks = []
for pid in sorted(CLAIMED):
    technique, text, ref = CLAIMED[pid]
    checks.append({
        "property_id": pid,
        "quick_cmd": "/verif/bin/intotocheck -property %s -tier quick" % pid,
        "thorough_cmd": "/verif/bin/intotocheck -property %s -tier thorough" % pid,
        "evidence_file": "/verif/evidence/%s.json" % pid,
        "replay_cmd_template": "cat {path}",
        "engine": "intotocheck",
        "level_claimed": {"category": "other", "text": text, "design_ref": ref},
        "level_note": TRUST,
        "technique": technique,
    })

manifest = {
    "version": 1,
    "setup_cmd": "cd /verif/checker && %s go build -o /verif/bin/intotocheck . " % ENV,
    "hooks": {
        "guard": "verif",
        "enable": "none: static analysis needs no instrumentation; there are no hook commits in /repo",
        "baseline_off_cmd": "python3 /verif/tools/baseline.py /repo",
        "source_commits": [],
        "add_only": True,
    },
    "engines": [{
        "name": "intotocheck",
        "path": "/verif/checker",
        "serves_properties": sorted(CLAIMED),
        "kind_free_text": "repository-specific static analyser over go/packages + go/ssa + VTA call graph: error-flow, "
                          "dominance facts, map-order independence, effects/taint, panic-site obligations, table agreement, "
                          "reachability, typestate; nothing of /repo is executed",
    }],
    "checks": checks,
    "not_applicable": [{"property_id": k, "reason": v} for k, v in sorted(NA.items())],
    "notes": open(os.path.join(os.path.dirname(__file__), "notes.txt")).read().strip(),
}
json.dump(manifest, open("/verif/MANIFEST.json", "w"), indent=1)
print("claimed:", sorted(CLAIMED), "not applicable:", sorted(NA))
