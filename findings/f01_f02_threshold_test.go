package in_toto

import (
	"os"
	"testing"
)

func f12setup(t *testing.T) (Layout, Key, Key, Metadata, func() Metadata) {
	var alice, wc, certKey, root Key
	if err := alice.LoadKeyDefaults("alice"); err != nil {
		t.Fatal(err)
	}
	if err := wc.LoadKeyDefaults("example.com.write-code.key.pem"); err != nil {
		t.Fatal(err)
	}
	if err := certKey.LoadKeyDefaults("example.com.write-code.cert.pem"); err != nil {
		t.Fatal(err)
	}
	wc.KeyVal.Certificate = certKey.KeyVal.Certificate
	if err := root.LoadKeyDefaults("root.cert.pem"); err != nil {
		t.Fatal(err)
	}
	alicePub := alice
	alicePub.KeyVal.Private = ""
	layout := Layout{Type: "layout",
		Keys:    map[string]Key{alice.KeyID: alicePub},
		RootCas: map[string]Key{root.KeyID: root},
		Steps: []Step{{Type: "step", SupplyChainItem: SupplyChainItem{Name: "foo"}, Threshold: 2, PubKeys: []string{alice.KeyID},
			CertificateConstraints: []CertificateConstraint{{CommonName: "*", DNSNames: []string{"*"}, Emails: []string{"*"}, Organizations: []string{"*"}, Roots: []string{"*"}, URIs: []string{"*"}}}}}}
	mk := func(k Key) Metadata {
		mb := &Metablock{Signed: Link{Type: "link", Name: "foo", Materials: map[string]HashObj{}, Products: map[string]HashObj{}, ByProducts: map[string]interface{}{}, Command: []string{}, Environment: map[string]interface{}{}}}
		if err := mb.Sign(k); err != nil {
			t.Fatal(err)
		}
		return mb
	}
	return layout, alice, wc, mk(alice), func() Metadata { return mk(wc) }
}

// F1: a step with one key-authorised and one certificate-authorised honest link must always reach threshold 2 (C02, C10).
func TestF1MixedRoutesDeterministic(t *testing.T) {
	layout, alice, wc, linkA, mkB := f12setup(t)
	rootPem, _ := os.ReadFile("root.cert.pem")
	interPem, _ := os.ReadFile("example.com.intermediate.cert.pem")
	_ = rootPem
	rootPool, interPool, err := LoadLayoutCertificates(layout, [][]byte{interPem})
	if err != nil {
		t.Fatal(err)
	}
	fails := 0
	for i := 0; i < 40; i++ {
		links := map[string]map[string]Metadata{"foo": {alice.KeyID: linkA, wc.KeyID: mkB()}}
		if _, err := VerifyLinkSignatureThesholds(layout, links, rootPool, interPool); err != nil {
			fails++
		}
	}
	if fails != 0 {
		t.Fatalf("%d of 40 identical verifications failed", fails)
	}
}

// F2: one certificate holder must not satisfy threshold 2 through forged key ids (C02).
func TestF2ForgedKeyIDsNotCounted(t *testing.T) {
	layout, _, wc, _, mkB := f12setup(t)
	layout.Steps[0].PubKeys = []string{}
	interPem, _ := os.ReadFile("example.com.intermediate.cert.pem")
	rootPool, interPool, err := LoadLayoutCertificates(layout, [][]byte{interPem})
	if err != nil {
		t.Fatal(err)
	}
	forge := func(id string) Metadata {
		mb := mkB().(*Metablock)
		mb.Signatures = append([]Signature{{KeyID: id, Sig: "00", Certificate: wc.KeyVal.Certificate}}, mb.Signatures...)
		return mb
	}
	x1 := "1111111111111111111111111111111111111111111111111111111111111111"
	x2 := "2222222222222222222222222222222222222222222222222222222222222222"
	links := map[string]map[string]Metadata{"foo": {x1: forge(x1), x2: forge(x2)}}
	res, err := VerifyLinkSignatureThesholds(layout, links, rootPool, interPool)
	if err == nil {
		t.Fatalf("one functionary counted %d times", len(res["foo"]))
	}
}
