package in_toto

import (
	"path/filepath"
	"reflect"
	"testing"
)

// F6: a DSSE payload must be valid JSON whatever characters its strings contain (C11, C12).
func TestF6EnvelopeRoundTripWithControlCharacters(t *testing.T) {
	link := Link{Type: "link", Name: "n", Materials: map[string]HashObj{}, Products: map[string]HashObj{},
		ByProducts: map[string]interface{}{"stdout": "a\nb\tc", "return-value": float64(0)}, Command: []string{"sh", "-c", "echo a; echo b"}, Environment: map[string]interface{}{}}
	env := &Envelope{}
	if err := env.SetPayload(link); err != nil {
		t.Fatal(err)
	}
	var key Key
	if err := key.LoadKeyDefaults("carol"); err != nil {
		t.Fatal(err)
	}
	if err := env.Sign(key); err != nil {
		t.Fatal(err)
	}
	p := filepath.Join(t.TempDir(), "n.link")
	if err := env.Dump(p); err != nil {
		t.Fatal(err)
	}
	back, err := LoadMetadata(p)
	if err != nil {
		t.Fatalf("dumped envelope does not load: %v", err)
	}
	if !reflect.DeepEqual(back.GetPayload(), link) {
		t.Fatalf("payload changed: %#v", back.GetPayload())
	}
}
