package in_toto

import (
	"crypto/x509"
	"testing"
)

// F9: an empty artifact rule must be an error, not an index-out-of-range panic (C15).
func TestF9EmptyRule(t *testing.T) {
	if _, err := UnpackRule([]string{}); err == nil {
		t.Fatal("empty rule accepted")
	}
	layout := Layout{Type: "layout", Expires: "2030-01-01T00:00:00Z", Keys: map[string]Key{},
		Steps: []Step{{Type: "step", SupplyChainItem: SupplyChainItem{Name: "s", ExpectedMaterials: [][]string{{}}}}}}
	if err := ValidateMetablock(Metablock{Signed: layout, Signatures: []Signature{}}); err == nil {
		t.Fatal("layout with an empty rule validates")
	}
}

// F10: a step with threshold 0 and no links must fail verification with an error, not reach the explicit panics (C15).
func TestF10ThresholdZeroWithoutLinks(t *testing.T) {
	layout := Layout{Type: "layout", Steps: []Step{{Type: "step", Threshold: 0, SupplyChainItem: SupplyChainItem{Name: "s"}}}}
	verified, err := VerifyLinkSignatureThesholds(layout, map[string]map[string]Metadata{"s": {}}, x509.NewCertPool(), x509.NewCertPool())
	if err == nil {
		// what InTotoVerify does next
		VerifyStepCommandAlignment(layout, verified)
		t.Fatal("a step without any verified link passed the threshold check")
	}
}
