package in_toto

import (
	"testing"
	"time"
)

// F8: RunCommand must not hang when the child writes more than a pipe buffer to stderr before closing stdout (C14).
func TestF8RunCommandLargeStderr(t *testing.T) {
	done := make(chan map[string]interface{}, 1)
	go func() {
		res, _ := RunCommand([]string{"sh", "-c", "head -c 300000 /dev/zero >&2; echo done"}, "")
		done <- res
	}()
	select {
	case res := <-done:
		if len(res["stderr"].(string)) != 300000 || res["stdout"].(string) != "done\n" || res["return-value"] != float64(0) {
			t.Fatalf("incomplete capture: %d %q %v", len(res["stderr"].(string)), res["stdout"], res["return-value"])
		}
	case <-time.After(5 * time.Second):
		t.Fatal("RunCommand did not return within 5s")
	}
}
