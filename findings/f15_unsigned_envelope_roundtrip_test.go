package in_toto

import (
	"path/filepath"
	"testing"
)

// F15: an unsigned envelope written by the library must load back (C12).
func TestF15UnsignedEnvelopeRoundTrip(t *testing.T) {
	env := &Envelope{}
	if err := env.SetPayload(Link{Type: "link", Name: "n", Materials: map[string]HashObj{}, Products: map[string]HashObj{}, ByProducts: map[string]interface{}{}, Command: []string{}, Environment: map[string]interface{}{}}); err != nil {
		t.Fatal(err)
	}
	p := filepath.Join(t.TempDir(), "n.link")
	if err := env.Dump(p); err != nil {
		t.Fatal(err)
	}
	if _, err := LoadMetadata(p); err != nil {
		t.Fatalf("dumped unsigned envelope does not load: %v", err)
	}
}
