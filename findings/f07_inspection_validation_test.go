package in_toto

import "testing"

// F7: the structural validator must reject malformed inspections (C12).
func TestF7InspectionsAreValidated(t *testing.T) {
	layout := Layout{Type: "layout", Expires: "2030-01-01T00:00:00Z", Keys: map[string]Key{},
		Inspect: []Inspection{{Type: "bogus", SupplyChainItem: SupplyChainItem{Name: "i", ExpectedMaterials: [][]string{{"FOO"}}}}}}
	if err := ValidateMetablock(Metablock{Signed: layout, Signatures: []Signature{}}); err == nil {
		t.Fatal("layout with an inspection of type 'bogus' and rule [FOO] validates")
	}
}
