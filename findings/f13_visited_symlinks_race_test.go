package in_toto

import (
	"os"
	"path/filepath"
	"sync"
	"testing"
)

// F13: concurrent RecordArtifacts calls on disjoint trees must not share state (C16, C13). Run with -race.
func TestF13ConcurrentRecordArtifacts(t *testing.T) {
	mk := func() string {
		d := t.TempDir()
		os.WriteFile(filepath.Join(d, "f"), []byte("x"), 0o644)
		for i := 0; i < 20; i++ {
			os.Symlink(filepath.Join(d, "f"), filepath.Join(d, "l"+string(rune('a'+i))))
		}
		return d
	}
	a, b := mk(), mk()
	var wg sync.WaitGroup
	for _, d := range []string{a, b, a, b} {
		wg.Add(1)
		go func(d string) {
			defer wg.Done()
			for i := 0; i < 50; i++ {
				if _, err := RecordArtifacts([]string{d}, []string{"sha256"}, nil, nil, false, false); err != nil {
					t.Errorf("unexpected error: %v", err)
					return
				}
			}
		}(d)
	}
	wg.Wait()
}
