package in_toto

import "testing"

// F12: a zero Envelope must yield errors, not a nil dereference (C15).
func TestF12ZeroEnvelope(t *testing.T) {
	var key Key
	if err := key.LoadKeyDefaults("carol"); err != nil {
		t.Fatal(err)
	}
	e := &Envelope{}
	if err := e.Sign(key); err == nil {
		t.Fatal("signing an empty envelope succeeded")
	}
	if err := e.VerifySignature(key); err == nil {
		t.Fatal("verifying an empty envelope succeeded")
	}
	if n := len(e.Sigs()); n != 0 {
		t.Fatalf("%d signatures", n)
	}
	if _, err := e.GetSignatureForKeyID("x"); err == nil {
		t.Fatal("found a signature")
	}
}
