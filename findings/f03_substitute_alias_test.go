package in_toto

import "testing"

// F3: SubstituteParameters must not rewrite the caller's layout (C10, C01, C18).
func TestF3SubstituteLeavesCallerLayoutUntouched(t *testing.T) {
	l := Layout{Steps: []Step{{ExpectedCommand: []string{"{X}"}}}, Inspect: []Inspection{{Run: []string{"{X}"}}}}
	out, err := SubstituteParameters(l, map[string]string{"X": "y"})
	if err != nil || out.Steps[0].ExpectedCommand[0] != "y" {
		t.Fatalf("substitution failed: %v %v", err, out)
	}
	if l.Steps[0].ExpectedCommand[0] != "{X}" || l.Inspect[0].Run[0] != "{X}" {
		t.Fatalf("caller's layout was modified: %v %v", l.Steps[0].ExpectedCommand, l.Inspect[0].Run)
	}
}
