package in_toto

import "testing"

// F11: keys whose type contradicts their material, or malformed keys, must yield errors, not crashes (C15).
func TestF11KeyMaterialMismatch(t *testing.T) {
	var ec Key
	if err := ec.LoadKeyDefaults("frank.pub"); err != nil { // an ECDSA public key
		t.Fatal(err)
	}
	if ec.KeyType != "ecdsa" {
		t.Skip("fixture is not ecdsa: " + ec.KeyType)
	}
	bad := ec
	bad.KeyType, bad.Scheme = "rsa", "rsassa-pss-sha256"
	mb := &Metablock{Signed: Link{Type: "link", Name: "n"}, Signatures: []Signature{{KeyID: bad.KeyID, Sig: "00"}}}
	if err := mb.VerifySignature(bad); err == nil {
		t.Fatal("verification with an rsa key carrying ecdsa material succeeded")
	}
	short := Key{KeyID: "aa", KeyType: "ed25519", Scheme: "ed25519", KeyVal: KeyVal{Public: "abcd"}}
	mb.Signatures = []Signature{{KeyID: "aa", Sig: "00"}}
	if err := mb.VerifySignature(short); err == nil {
		t.Fatal("verification with a 2-byte ed25519 key succeeded")
	}
	shortPriv := Key{KeyID: "aa", KeyType: "ed25519", Scheme: "ed25519", KeyVal: KeyVal{Public: "3b6a27bcceb6a42d62a3a8d02a6f0d73653215771de243a63ac048a18b59da29", Private: "abcd"}}
	if err := mb.Sign(shortPriv); err == nil {
		t.Fatal("signing with a 2-byte ed25519 private key succeeded")
	}
}
