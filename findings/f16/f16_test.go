// F16: InTotoMatchProducts appends "." to the caller's paths slice when it is empty. An empty slice with spare capacity
// (e.g. buf[:0]) shares its backing array with the caller, so the append writes into caller memory: two concurrent
// calls that are handed the same empty option slice race on element 0 (and the caller's buffer is overwritten).
//
// Copy to in_toto/zz_f16_test.go and run from in_toto/:
//   go test -race -vet=off -count=1 -run TestF16 .
// Before the fix: DATA RACE / the caller's backing array holds "."; after the fix: ok.
package in_toto

import (
	"sync"
	"testing"
)

func TestF16MatchProductsLeavesCallerSliceAlone(t *testing.T) {
	backing := []string{"keep-me"}
	empty := backing[:0]
	link := &Link{Products: map[string]HashObj{}}
	var wg sync.WaitGroup
	for i := 0; i < 4; i++ {
		wg.Add(1)
		go func() {
			defer wg.Done()
			_, _, _, _ = InTotoMatchProducts(link, empty, []string{"sha256"}, []string{"*"}, nil)
		}()
	}
	wg.Wait()
	if backing[0] != "keep-me" {
		t.Fatalf("InTotoMatchProducts wrote %q into the caller's slice", backing[0])
	}
}
