package in_toto

import "testing"

// F14: MATCH with a source prefix must only consume artifacts located under that prefix (C03).
func TestF14MatchOnlyUnderSourcePrefix(t *testing.T) {
	h := HashObj{"sha256": "aa"}
	dst := &Metablock{Signed: Link{Type: "link", Name: "s", Products: map[string]HashObj{"foo": h}}}
	rule, _ := UnpackRule([]string{"MATCH", "foo", "IN", "sub", "WITH", "PRODUCTS", "FROM", "s"})
	consumed := verifyMatchRule(rule, map[string]HashObj{"foo": h, "sub/foo": h}, NewSet("foo", "sub/foo"), map[string]Metadata{"s": dst})
	if consumed.Has("foo") || !consumed.Has("sub/foo") {
		t.Fatalf("consumed %v, expected only sub/foo", consumed.Slice())
	}
}
