package in_toto

import "testing"

// F5: signing an envelope with several keys in succession must yield metadata that verifies under each of them (C04).
func TestF5EnvelopeSignKeepsEarlierSignatures(t *testing.T) {
	var carol, alice Key
	if err := carol.LoadKeyDefaults("carol"); err != nil {
		t.Fatal(err)
	}
	if err := alice.LoadKeyDefaults("alice"); err != nil {
		t.Fatal(err)
	}
	env := &Envelope{}
	if err := env.SetPayload(Link{Type: "link", Name: "n"}); err != nil {
		t.Fatal(err)
	}
	if err := env.Sign(carol); err != nil {
		t.Fatal(err)
	}
	if err := env.Sign(alice); err != nil {
		t.Fatal(err)
	}
	if len(env.Sigs()) != 2 {
		t.Fatalf("%d signature(s) after signing twice", len(env.Sigs()))
	}
	if err := env.VerifySignature(carol); err != nil {
		t.Fatalf("first signer no longer verifies: %v", err)
	}
	if err := env.VerifySignature(alice); err != nil {
		t.Fatal(err)
	}
}
