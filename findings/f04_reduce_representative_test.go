package in_toto

import "testing"

// F4: the link that represents a step must not depend on map iteration order (C10).
func TestF4ReduceDeterministicRepresentative(t *testing.T) {
	mk := func(cmd string) Metadata {
		return &Metablock{Signed: Link{Type: "link", Name: "foo", Materials: map[string]HashObj{}, Products: map[string]HashObj{}, Command: []string{cmd}}}
	}
	layout := Layout{Steps: []Step{{SupplyChainItem: SupplyChainItem{Name: "foo"}}}}
	seen := map[string]bool{}
	for i := 0; i < 60; i++ {
		links := map[string]map[string]Metadata{"foo": {"aa": mk("a"), "bb": mk("b"), "cc": mk("c")}}
		red, err := ReduceStepsMetadata(layout, links)
		if err != nil {
			t.Fatal(err)
		}
		seen[red["foo"].GetPayload().(Link).Command[0]] = true
	}
	if len(seen) != 1 {
		t.Fatalf("representative link varies between identical calls: %v", seen)
	}
}
